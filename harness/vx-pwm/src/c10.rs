//! C10 — reverse-complementing a motif mirrors its scores on the opposite strand (DESIGN §C10).
//!
//! Sub-spaces (complete enumerations):
//!   `involution`     every count matrix of width 1..=4 over the C09 row menu x pseudocount menu x background menu;
//!                    count / frequency / weight / scoring matrix: rc(rc(m)) == m exactly, rc(m) == definition;
//!   `commutation`    the same count matrices x strand-symmetric pseudocounts x strand-symmetric backgrounds:
//!                    rc commutes with to_freq (row-sum reassociation allowed), to_weight, to_scoring (exact);
//!   `mirror_scores`  ALL DNA sequences of length <= 6 x every menu scoring matrix with M <= 3 x
//!                    {generic pipeline, dispatcher arms generic / sse2 / avx2}:
//!                    rc(m).score(rc(s))[L-M-i] == m.score(s)[i] up to summation order (exact for integer menus).
//!
//! DNA symbol order is A,C,T,G,N; complement A<->T, C<->G, N<->N (`pm::DNA_COMPLEMENT`).

use lightmotif::abc::{Background, Dna, Nucleotide};
use lightmotif::num::U32;
use lightmotif::pli::dispatch::Dispatch;
use lightmotif::pli::platform::Generic;
use lightmotif::pli::{Pipeline, Score, Stripe};
use lightmotif::pwm::{CountMatrix, FrequencyMatrix, ScoringMatrix, WeightMatrix};
use lightmotif::scores::StripedScores;
use lightmotif::seq::{EncodedSequence, StripedSequence};
use lightmotif::verif::Forced;
use serde_json::{json, Value};
use vx_core::util::panic_class;
use vx_core::{catch, Ctx, Report};

use crate::pm::{self, BgSpec, PseudoSpec};

type Fails = Vec<(String, String)>;

fn push(f: &mut Fails, sig: String, msg: String) {
    if !f.iter().any(|x| x.0 == sig) {
        f.push((sig, msg));
    }
}

fn bits(m: &[Vec<f32>]) -> Vec<Vec<u32>> {
    m.iter()
        .map(|r| r.iter().map(|x| x.to_bits()).collect())
        .collect()
}

// ---------------------------------------------------------------------------
// matrix-level cases (involution, commutation)
// ---------------------------------------------------------------------------

#[derive(Clone, Debug)]
pub struct ChainCase {
    pub counts: Vec<Vec<u32>>,
    pub pseudo: PseudoSpec,
    pub bg: BgSpec,
}

impl ChainCase {
    fn json(&self, kind: &str, check: &str) -> Value {
        json!({
            "kind": kind,
            "alphabet": "dna",
            "counts": self.counts,
            "pseudocounts": self.pseudo.json(),
            "background": self.bg.json(),
            "background_frequencies": pm::f32s_to_json(&self.bg.reference(5)),
            "check": check,
        })
    }

    fn from_json(v: &Value) -> ChainCase {
        ChainCase {
            counts: pm::counts_from_json(&v["counts"]),
            pseudo: PseudoSpec::from_json(&v["pseudocounts"]),
            bg: BgSpec::from_json(&v["background"]),
        }
    }

    fn in_domain(&self) -> bool {
        pm::ref_freq(&self.counts, &self.pseudo.reference(5))
            .iter()
            .all(|r| r.is_some())
    }

    fn rc_changes_counts(&self) -> bool {
        pm::ref_rc(&self.counts) != self.counts
    }
}

struct Chain {
    cm: CountMatrix<Dna>,
    bg: Background<Dna>,
    f: FrequencyMatrix<Dna>,
    w: WeightMatrix<Dna>,
    s: ScoringMatrix<Dna>,
}

enum Built {
    Ok(Chain),
    BgRejected,
    Panic(String),
}

fn build_chain(c: &ChainCase) -> Built {
    match catch(|| {
        let cm = pm::count_matrix::<Dna>(&c.counts);
        let bg = match c.bg.build::<Dna>() {
            Ok(b) => b,
            Err(()) => return None,
        };
        let f = c.pseudo.to_freq(&cm);
        let w = f.to_weight(bg.clone());
        let s = f.to_scoring(bg.clone());
        Some(Chain { cm, bg, f, w, s })
    }) {
        Ok(Some(ch)) => Built::Ok(ch),
        Ok(None) => Built::BgRejected,
        Err(p) => Built::Panic(p),
    }
}

/// rc(rc(m)) == m exactly and rc(m) equals the definition, for the four matrix kinds.
/// Returns the number of matrix kinds checked.
fn check_involution(c: &ChainCase, fails: &mut Fails) -> Option<u64> {
    let ch = match build_chain(c) {
        Built::Ok(ch) => ch,
        Built::BgRejected => return None,
        Built::Panic(p) => {
            push(
                fails,
                format!("construction panic {}", panic_class(&p)),
                format!("building the conversion chain panicked: {}", p),
            );
            return Some(0);
        }
    };
    let mut kinds = 0u64;
    // count matrix (always in the domain)
    match catch(|| {
        let r = ch.cm.reverse_complement();
        let rr = r.reverse_complement();
        (
            pm::cells_u32(&r),
            pm::cells_u32(&rr),
            rr == ch.cm,
            rr.sequence_count() == ch.cm.sequence_count(),
        )
    }) {
        Ok((r, rr, eq, neq)) => {
            kinds += 1;
            let orig = pm::cells_u32(&ch.cm);
            if rr != orig || !eq || !neq {
                push(fails, "count rc(rc(m)) != m".into(), format!("count matrix {:?}: rc(rc(m)) = {:?} (== says {}, sequence_count equal: {})", orig, rr, eq, neq));
            }
            let want = pm::ref_rc(&orig);
            if r != want {
                push(fails, "count rc(m) differs from the definition".into(), format!("count matrix {:?}: rc(m) = {:?}, rows reversed + columns complemented gives {:?}", orig, r, want));
            }
        }
        Err(p) => push(
            fails,
            format!("count reverse_complement panic {}", panic_class(&p)),
            format!("CountMatrix::reverse_complement panicked: {}", p),
        ),
    }
    if !c.in_domain() {
        // 0/0 rows hold NaN, for which == is meaningless
        return Some(kinds);
    }
    macro_rules! float_kind {
        ($name:expr, $m:expr, $cells:path, $bgof:expr) => {{
            let m = $m;
            match catch(|| {
                let r = m.reverse_complement();
                let rr = r.reverse_complement();
                let bg_ok: bool = $bgof(&r, &rr, m);
                ($cells(&r), $cells(&rr), rr == *m, bg_ok)
            }) {
                Ok((r, rr, eq, bg_ok)) => {
                    kinds += 1;
                    let orig = $cells(m);
                    if bits(&rr) != bits(&orig) || !eq || !bg_ok {
                        push(
                            fails,
                            format!("{} rc(rc(m)) != m", $name),
                            format!("{} matrix {:?}: rc(rc(m)) = {:?} (== says {}, background preserved: {})", $name, orig, rr, eq, bg_ok),
                        );
                    }
                    let want = pm::ref_rc(&orig);
                    if bits(&r) != bits(&want) {
                        push(
                            fails,
                            format!("{} rc(m) differs from the definition", $name),
                            format!("{} matrix {:?}: rc(m) = {:?}, rows reversed + columns complemented gives {:?}", $name, orig, r, want),
                        );
                    }
                }
                Err(p) => push(fails, format!("{} reverse_complement panic {}", $name, panic_class(&p)), format!("{} reverse_complement panicked: {}", $name, p)),
            }
        }};
    }
    float_kind!(
        "frequency",
        &ch.f,
        pm::cells_freq,
        |_r: &FrequencyMatrix<Dna>, _rr: &FrequencyMatrix<Dna>, _m: &FrequencyMatrix<Dna>| true
    );
    float_kind!("weight", &ch.w, pm::cells_weight, |_r: &WeightMatrix<
        Dna,
    >,
                                                    rr: &WeightMatrix<
        Dna,
    >,
                                                    m: &WeightMatrix<
        Dna,
    >| rr.background()
        == m.background());
    float_kind!("scoring", &ch.s, pm::cells_score, |_r: &ScoringMatrix<
        Dna,
    >,
                                                    rr: &ScoringMatrix<
        Dna,
    >,
                                                    m: &ScoringMatrix<
        Dna,
    >| rr.background()
        == m.background());
    let _ = &ch.bg;
    Some(kinds)
}

/// Is a per-symbol vector strand-symmetric (A == T, C == G)?
fn symmetric(v: &[f32]) -> bool {
    v[0] == v[2] && v[1] == v[3]
}

/// rc commutes with each conversion step under strand-symmetric pseudocounts / background.
fn check_commutation(c: &ChainCase, fails: &mut Fails) -> Option<u64> {
    assert!(
        symmetric(&c.bg.reference(5)),
        "harness: commutation needs a strand-symmetric background"
    );
    assert!(
        symmetric(
            &c.pseudo
                .reference(5)
                .iter()
                .map(|&x| x as f32)
                .collect::<Vec<_>>()
        ),
        "harness: commutation needs strand-symmetric pseudocounts"
    );
    if !c.in_domain() {
        return Some(0);
    }
    let ch = match build_chain(c) {
        Built::Ok(ch) => ch,
        Built::BgRejected => return None,
        Built::Panic(p) => {
            push(
                fails,
                format!("construction panic {}", panic_class(&p)),
                format!("building the conversion chain panicked: {}", p),
            );
            return Some(0);
        }
    };
    let res = catch(|| {
        let rc_cm = ch.cm.reverse_complement();
        // (1) counts -> frequencies
        let a_f = c.pseudo.to_freq(&rc_cm);
        let b_f = ch.f.reverse_complement();
        // (2) frequencies -> weights (the library's frequency matrix is the common input)
        let a_w = b_f.to_weight(ch.bg.clone());
        let b_w = ch.w.reverse_complement();
        // (3) frequencies -> scores, weights -> scores
        let a_s = b_f.to_scoring(ch.bg.clone());
        let b_s = ch.s.reverse_complement();
        let a_ws = b_w.to_scoring();
        let b_ws = ch.w.to_scoring().reverse_complement();
        // (4) the whole chain from counts
        let a_chain = a_f.to_scoring(ch.bg.clone());
        (
            pm::cells_freq(&a_f),
            pm::cells_freq(&b_f),
            (pm::cells_weight(&a_w), pm::cells_weight(&b_w), a_w == b_w),
            (pm::cells_score(&a_s), pm::cells_score(&b_s), a_s == b_s),
            (pm::cells_score(&a_ws), pm::cells_score(&b_ws), a_ws == b_ws),
            pm::cells_score(&a_chain),
        )
    });
    let (a_f, b_f, (a_w, b_w, eq_w), (a_s, b_s, eq_s), (a_ws, b_ws, eq_ws), a_chain) = match res {
        Ok(x) => x,
        Err(p) => {
            push(
                fails,
                format!("commutation panic {}", panic_class(&p)),
                format!("a conversion / reverse_complement call panicked: {}", p),
            );
            return Some(0);
        }
    };
    // (1): both sides are (count+pseudo)/total with the same operands; only the order of the K-term row sum
    // differs.  Each side is within gamma_{K+2} (relative) of the exact value e, so |a-b| <= 2 gamma_{K+2} e.
    let rc_counts = pm::ref_rc(&c.counts);
    let rf: Vec<Vec<f64>> = pm::ref_freq(&rc_counts, &c.pseudo.reference(5))
        .into_iter()
        .map(|r| r.unwrap())
        .collect();
    let frel = pm::tol_freq_rel(5);
    for i in 0..rf.len() {
        for j in 0..5 {
            let (a, b) = (a_f[i][j], b_f[i][j]);
            pm::note_slack(((a as f64) - (b as f64)).abs(), 2.0 * frel * rf[i][j]);
            if !(a.is_finite()
                && b.is_finite()
                && ((a as f64) - (b as f64)).abs() <= 2.0 * frel * rf[i][j])
            {
                push(
                    fails,
                    "to_freq does not commute with rc".into(),
                    format!(
                        "cell [{}][{}]: rc(counts).to_freq(p) = {:?}, rc(counts.to_freq(p)) = {:?}, exact value {:.9e} (allowance {:.3e} for the row-sum order)",
                        i,
                        pm::DNA_LETTERS[j] as char,
                        a,
                        b,
                        rf[i][j],
                        2.0 * frel * rf[i][j]
                    ),
                );
            }
        }
    }
    // (2), (3): element-wise steps on identical operands (b[s] == b[complement s]) => bit-identical
    if bits(&a_w) != bits(&b_w) || !eq_w {
        push(
            fails,
            "to_weight does not commute with rc".into(),
            format!(
                "rc(f).to_weight(bg) = {:?}, rc(f.to_weight(bg)) = {:?} (== says {})",
                a_w, b_w, eq_w
            ),
        );
    }
    if bits(&a_s) != bits(&b_s) || !eq_s {
        push(
            fails,
            "to_scoring does not commute with rc".into(),
            format!(
                "rc(f).to_scoring(bg) = {:?}, rc(f.to_scoring(bg)) = {:?} (== says {})",
                a_s, b_s, eq_s
            ),
        );
    }
    if bits(&a_ws) != bits(&b_ws) || !eq_ws {
        push(
            fails,
            "WeightMatrix::to_scoring does not commute with rc".into(),
            format!(
                "rc(w).to_scoring() = {:?}, rc(w.to_scoring()) = {:?} (== says {})",
                a_ws, b_ws, eq_ws
            ),
        );
    }
    // (4): the two frequencies differ by at most 2 gamma_{K+2} (relative); one division each => weights differ by
    // at most 2 gamma_{K+3}; log2 turns that into an absolute 2 gamma_{K+3} / ln 2 plus its own evaluation error.
    let b = c.bg.reference(5);
    for i in 0..rf.len() {
        for j in 0..5 {
            let (x, y) = (a_chain[i][j], b_s[i][j]);
            let exact = pm::ref_score(rf[i][j], b[j] as f64, 2.0);
            if exact.is_finite() {
                pm::note_slack(
                    ((x as f64) - (y as f64)).abs(),
                    2.0 * pm::tol_score(exact, pm::tol_weight_rel(5), 2.0),
                );
            }
            let ok = if exact == f64::NEG_INFINITY {
                x == f32::NEG_INFINITY && y == f32::NEG_INFINITY
            } else {
                x.is_finite()
                    && y.is_finite()
                    && ((x as f64) - (y as f64)).abs()
                        <= 2.0 * pm::tol_score(exact, pm::tol_weight_rel(5), 2.0)
            };
            if !ok {
                push(
                    fails,
                    "count -> score chain does not commute with rc".into(),
                    format!(
                        "cell [{}][{}]: rc(counts).to_freq(p).to_scoring(bg) = {:?}, rc(counts.to_freq(p).to_scoring(bg)) = {:?}, definition {:.9e}",
                        i,
                        pm::DNA_LETTERS[j] as char,
                        x,
                        y,
                        exact
                    ),
                );
            }
        }
    }
    Some(5)
}

fn symmetric_pseudos() -> Vec<PseudoSpec> {
    vec![
        PseudoSpec::Scalar(0.0),
        PseudoSpec::Scalar(0.1),
        PseudoSpec::Scalar(1.0),
        PseudoSpec::PerSymbol(vec![0.1, 0.2, 0.1, 0.2, 0.3]),
        PseudoSpec::PerSymbol(vec![0.0, 0.0, 0.0, 0.0, 0.5]),
    ]
}

fn symmetric_backgrounds() -> Vec<BgSpec> {
    vec![
        BgSpec::Uniform,
        BgSpec::New(vec![0.125, 0.375, 0.125, 0.375, 0.0]),
        BgSpec::New(vec![0.25, 0.125, 0.25, 0.125, 0.25]), // non-zero wildcard
        BgSpec::New(vec![0.0, 0.5, 0.0, 0.5, 0.0]),        // A = T = 0
        BgSpec::New(vec![0.5, 0.0, 0.5, 0.0, 0.0]),        // C = G = 0 (a zero column BETWEEN the two non-zero ones)
        BgSpec::FromCounts(vec![3, 2, 3, 2, 0]),           // (.3,.2,.3,.2,0), not dyadic
    ]
}

const INVOLUTION_DESC: &str = "product: every DNA count matrix of width 1..=4 over the 8-row C09 menu (4680) x 5 pseudocount specs x 6 backgrounds (strand-asymmetric ones included; one with a frequency of 1e-8); \
    on each point the count, frequency, weight and scoring matrix: rc(rc(m)) == m (cells bit-for-bit, PartialEq, background, sequence count) and rc(m) == rows reversed + columns permuted by A<->T, C<->G, N<->N; plus count matrices built by from_sequences from every tuple of 1..=3 sequences of length 0 and 1. \
    one evaluation = one matrix kind of one point; non-trivial = rc changes the count matrix (so the identity function would be caught). Frequency/weight/scoring matrices of points with a 0/0 row (NaN) are skipped";

const COMMUTATION_DESC: &str = "product: the same 4680 count matrices x 5 strand-symmetric pseudocount specs (0, 0.1, 1, (.1,.2,.1,.2,.3), wildcard-only) x 6 strand-symmetric backgrounds (uniform, (.125,.375,.125,.375,0), \
    non-zero wildcard, A=T=0, C=G=0, from_counts(3,2,3,2,0)); five commutation identities per point: to_freq (allowance 2*gamma_{K+2} for the row-sum order), to_weight, FrequencyMatrix::to_scoring, WeightMatrix::to_scoring (bit-identical), \
    and the whole count->score chain (derived tolerance). non-trivial = point in the domain (no 0/0 row) and rc changes the count matrix";

fn run_matrix_level(ctx: &mut Ctx, rep: &mut Report, index: &mut u64) {
    let rows = pm::dna_count_rows();
    let mats = pm::matrices_upto(rows.len(), 4);
    // ---- involution -----------------------------------------------------------------------------
    if ctx.wants("involution") {
        rep.space("involution", INVOLUTION_DESC);
        let pseudos = pm::dna_pseudos();
        let bgs = pm::dna_backgrounds();
        let mut skipped_nan = false;
        'outer: for (mi, midx) in mats.iter().enumerate() {
            for (pi, ps) in pseudos.iter().enumerate() {
                for (bi, bs) in bgs.iter().enumerate() {
                    let idx = *index;
                    *index += 1;
                    if !ctx.mine(idx) {
                        continue;
                    }
                    let case = ChainCase {
                        counts: pm::pick_rows(&rows, midx),
                        pseudo: ps.clone(),
                        bg: bs.clone(),
                    };
                    ctx.crumb(|| format!("C10 involution matrix#{} pseudo#{} bg#{}", mi, pi, bi));
                    let mut fails = Fails::new();
                    match check_involution(&case, &mut fails) {
                        None => rep.not_covered(format!("C10: menu background {:?} was rejected by its constructor; its points were skipped", bs)),
                        Some(kinds) => {
                            let nt = if case.rc_changes_counts() { kinds } else { 0 };
                            pm::bulk(rep, "involution", kinds, nt);
                            if kinds < 4 {
                                skipped_nan = true;
                            }
                        }
                    }
                    for (sig, msg) in fails {
                        rep.violation(format!("C10 involution {}", sig), msg, || {
                            case.json("involution", &sig)
                        });
                    }
                    if mi == 7 + 2 * 7 + 3 && pi == 1 && bi == 1 {
                        rep.sample_space(1, || case.json("involution", "sample"));
                    }
                }
            }
            if ctx.out_of_time() {
                rep.cap(format!(
                    "involution: wall-clock cap at matrix #{} of {}",
                    mi,
                    mats.len()
                ));
                break 'outer;
            }
        }
        if skipped_nan {
            rep.note("C10: points with a count+pseudocount row total of 0 hold NaN (0/0) frequency rows, for which equality is undefined; only their count matrix was checked");
        }
        // count matrices built by CountMatrix::from_sequences (their sequence count is the number of sequences, which
        // for width 0 or wildcard-free columns is NOT derivable from the cells): every tuple of 1..=3 sequences of
        // length 0 and 1
        for l in 0..=1usize {
            let words: Vec<Vec<u8>> = pm::all_words_upto(l, 5).into_iter().filter(|w| w.len() == l).collect();
            for k in 1..=3usize {
                let total = (words.len() as u64).pow(k as u32);
                for t in 0..total {
                    let idx = *index;
                    *index += 1;
                    if !ctx.mine(idx) {
                        continue;
                    }
                    let mut r = t;
                    let seqs: Vec<Vec<u8>> = (0..k)
                        .map(|_| {
                            let w = words[(r % words.len() as u64) as usize].clone();
                            r /= words.len() as u64;
                            w
                        })
                        .collect();
                    pm::bulk(rep, "involution", 1, 1);
                    let res = catch(|| {
                        let enc: Vec<EncodedSequence<Dna>> = seqs.iter().map(|s| EncodedSequence::<Dna>::new(pm::to_symbols::<Dna>(s))).collect();
                        let cm = lightmotif::pwm::CountMatrix::<Dna>::from_sequences(enc).map_err(|_| ()).expect("equal lengths");
                        let rr = cm.reverse_complement().reverse_complement();
                        (rr == cm, cm.sequence_count(), rr.sequence_count())
                    });
                    match res {
                        Ok((eq, n0, n2)) => {
                            if !eq || n0 != n2 {
                                rep.violation(
                                    "C10 involution count (from_sequences) rc(rc(m)) != m".to_string(),
                                    format!("count matrix of {} sequence(s) of length {}: rc(rc(m)) == m says {}, sequence_count {} -> {}", k, l, eq, n0, n2),
                                    || json!({"kind": "involution_from_sequences", "alphabet": "dna", "sequences": seqs}),
                                );
                            }
                        }
                        Err(p) => rep.violation(
                            format!("C10 involution count (from_sequences) panic {}", panic_class(&p)),
                            format!("from_sequences / reverse_complement panicked: {}", p),
                            || json!({"kind": "involution_from_sequences", "alphabet": "dna", "sequences": seqs}),
                        ),
                    }
                }
            }
        }
    }
    // ---- commutation ----------------------------------------------------------------------------
    if ctx.wants("commutation") && !ctx.out_of_time() {
        rep.space("commutation", COMMUTATION_DESC);
        let pseudos = symmetric_pseudos();
        let bgs = symmetric_backgrounds();
        'outer2: for (mi, midx) in mats.iter().enumerate() {
            for (pi, ps) in pseudos.iter().enumerate() {
                for (bi, bs) in bgs.iter().enumerate() {
                    let idx = *index;
                    *index += 1;
                    if !ctx.mine(idx) {
                        continue;
                    }
                    let case = ChainCase {
                        counts: pm::pick_rows(&rows, midx),
                        pseudo: ps.clone(),
                        bg: bs.clone(),
                    };
                    ctx.crumb(|| format!("C10 commutation matrix#{} pseudo#{} bg#{}", mi, pi, bi));
                    let mut fails = Fails::new();
                    match check_commutation(&case, &mut fails) {
                        None => rep.not_covered(format!("C10: symmetric menu background {:?} was rejected by its constructor; its points were skipped", bs)),
                        Some(0) => pm::bulk(rep, "commutation", 1, 0),
                        Some(n) => pm::bulk(rep, "commutation", n, if case.rc_changes_counts() { n } else { 0 }),
                    }
                    for (sig, msg) in fails {
                        rep.violation(format!("C10 commutation {}", sig), msg, || {
                            case.json("commutation", &sig)
                        });
                    }
                    if mi == 7 + 2 * 7 + 3 && pi == 3 && bi == 4 {
                        rep.sample_space(1, || case.json("commutation", "sample"));
                    }
                }
            }
            if ctx.out_of_time() {
                rep.cap(format!(
                    "commutation: wall-clock cap at matrix #{} of {}",
                    mi,
                    mats.len()
                ));
                break 'outer2;
            }
        }
        rep.note("C10: commutation points with a count+pseudocount row total of 0 (0/0) are outside the domain and counted as trivial");
    }
}

// ---------------------------------------------------------------------------
// mirrored scores
// ---------------------------------------------------------------------------

#[derive(Clone, Debug)]
pub enum MatSpec {
    /// `ScoringMatrix::new(Background::uniform(), rows)` with small-integer cells (sums are exact in f32)
    Int(Vec<Vec<f32>>),
    /// `counts.to_freq(pseudo).to_scoring(bg)`
    LogOdds(ChainCase),
}

impl MatSpec {
    fn json(&self) -> Value {
        match self {
            MatSpec::Int(rows) => json!({"kind": "integer", "rows": pm::matrix_to_json(rows)}),
            MatSpec::LogOdds(c) => {
                json!({"kind": "log_odds", "counts": c.counts, "pseudocounts": c.pseudo.json(), "background": c.bg.json()})
            }
        }
    }

    fn from_json(v: &Value) -> MatSpec {
        match v["kind"].as_str().unwrap() {
            "integer" => MatSpec::Int(pm::matrix_from_json(&v["rows"])),
            _ => MatSpec::LogOdds(ChainCase::from_json(v)),
        }
    }

    fn width(&self) -> usize {
        match self {
            MatSpec::Int(r) => r.len(),
            MatSpec::LogOdds(c) => c.counts.len(),
        }
    }

    fn build(&self) -> Result<Option<ScoringMatrix<Dna>>, String> {
        catch(|| match self {
            MatSpec::Int(rows) => Some(ScoringMatrix::<Dna>::new(
                Background::uniform(),
                pm::dense_f32::<Dna>(rows),
            )),
            MatSpec::LogOdds(c) => {
                let bg = c.bg.build::<Dna>().ok()?;
                Some(
                    c.pseudo
                        .to_freq(&pm::count_matrix::<Dna>(&c.counts))
                        .to_scoring(bg),
                )
            }
        })
    }
}

struct Prepared {
    spec: MatSpec,
    m: ScoringMatrix<Dna>,
    rc: ScoringMatrix<Dna>,
    cells: Vec<Vec<f32>>,
    width: usize,
    integer: bool,
}

fn int_rows() -> Vec<Vec<f32>> {
    vec![
        vec![1.0, 2.0, 4.0, 8.0, 16.0],
        vec![-3.0, 5.0, -7.0, 11.0, 0.0],
        vec![100.0, -100.0, 37.0, 0.0, -1.0],
        vec![2.0, -1.0, 3.0, -2.0, f32::NEG_INFINITY],
    ]
}

#[derive(Clone, Copy, Debug, PartialEq, Eq)]
enum Pl {
    Generic,
    Arm(Forced),
}

const PIPELINES: [Pl; 4] = [
    Pl::Generic,
    Pl::Arm(Forced::Generic),
    Pl::Arm(Forced::Sse2),
    Pl::Arm(Forced::Avx2),
];

impl Pl {
    fn name(&self) -> String {
        match self {
            Pl::Generic => "generic".into(),
            Pl::Arm(a) => format!("dispatch[{}]", pm::arm_name(*a)),
        }
    }

    fn from_name(s: &str) -> Option<Pl> {
        PIPELINES.iter().cloned().find(|p| p.name() == s)
    }
}

/// Position p of a striped score matrix (textbook formula: row = p mod R, column = p div R).
#[inline]
fn at(sc: &StripedScores<f32, U32>, p: usize) -> f32 {
    let r = sc.matrix().rows();
    sc.matrix()[p % r][p / r]
}

fn mirror_json(spec: &MatSpec, cells: &[Vec<f32>], seq: &[u8], pl: Pl, wrap: usize) -> Value {
    json!({
        "kind": "mirror",
        "alphabet": "dna",
        "matrix": spec.json(),
        "matrix_cells": pm::matrix_to_json(cells),
        "sequence": seq,
        "sequence_text": pm::ranks_to_text(pm::DNA_LETTERS, seq),
        "rc_sequence_text": pm::ranks_to_text(pm::DNA_LETTERS, &pm::ref_rc_seq(seq)),
        "pipeline": pl.name(),
        "wrap_rows": wrap,
    })
}

/// Compare the two score vectors of one (matrix, sequence, pipeline) point.
fn compare_mirror(
    p: &Prepared,
    seq: &[u8],
    a: &StripedScores<f32, U32>,
    b: &StripedScores<f32, U32>,
) -> Option<(String, String)> {
    let l = seq.len();
    let m = p.width;
    let valid = if l >= m { l - m + 1 } else { 0 };
    if a.max_index() != valid || b.max_index() != valid {
        return Some((
            "score count".into(),
            format!(
                "L={} M={}: m.score(s) has {} positions, rc(m).score(rc(s)) has {}, expected {}",
                l,
                m,
                a.max_index(),
                b.max_index(),
                valid
            ),
        ));
    }
    if valid > 0 && (a.matrix().rows() == 0 || b.matrix().rows() == 0) {
        return Some((
            "score count".into(),
            format!(
                "L={} M={}: empty score matrix for {} valid positions",
                l, m, valid
            ),
        ));
    }
    // The scores are also what the public by-position accessor `scores[i]` returns: it must read the same cells as
    // the textbook formula on both strands (seeded change C10-u: a stride derived from max_index instead of the rows
    // of the matrix differs when L mod 32 is in 1..M). Under its own catch: a wrong stride may leave the matrix.
    let by_index = catch(|| {
        for i in 0..valid {
            for (name, sc) in [("m.score(s)", a), ("rc(m).score(rc(s))", b)] {
                let (u, v) = (sc[i], at(sc, i));
                if u.to_bits() != v.to_bits() {
                    return Some(format!("{}[{}] = {:?} through Index<usize> but cell (row {} mod R, column {} div R) holds {:?} (L={}, M={}, R={})", name, i, u, i, i, v, l, m, sc.matrix().rows()));
                }
            }
        }
        None
    });
    match by_index {
        Ok(None) => {}
        Ok(Some(msg)) => return Some(("Index<usize> reads another cell".into(), msg)),
        Err(pn) => return Some((format!("Index<usize> panic {}", panic_class(&pn)), format!("reading a valid position (L={}, M={}, {} positions) through Index<usize> panicked: {}", l, m, valid, pn))),
    }
    for i in 0..valid {
        let x = at(a, i);
        let y = at(b, valid - 1 - i);
        if x == y {
            continue;
        }
        // slow path: decide with the summation bound (both sums hold the same M terms in opposite
        // order; each is within gamma_{M-1} * sum|terms| of the exact sum)
        let mut abs = 0f64;
        let mut ninf = false;
        for j in 0..m {
            let t = p.cells[j][seq[i + j] as usize];
            if t == f32::NEG_INFINITY {
                ninf = true;
            } else {
                abs += (t as f64).abs();
            }
        }
        let tol = if p.integer || ninf {
            0.0
        } else {
            2.0 * pm::sum_bound(m, abs)
        };
        pm::note_slack(((x as f64) - (y as f64)).abs(), tol);
        let ok = x.is_finite() && y.is_finite() && ((x as f64) - (y as f64)).abs() <= tol;
        if !ok {
            let class = if x.is_nan() || y.is_nan() {
                "NaN"
            } else if ninf {
                "-inf expected on both strands"
            } else if p.integer {
                "integer matrix, scores differ"
            } else {
                "beyond the summation bound"
            };
            return Some((
                format!("mirrored score: {}", class),
                format!(
                    "m.score(s)[{}] = {:?} but rc(m).score(rc(s))[{}] = {:?} (L={}, M={}, allowance {:.3e})",
                    i,
                    x,
                    valid - 1 - i,
                    y,
                    l,
                    m,
                    tol
                ),
            ));
        }
    }
    None
}

struct Striped {
    s: StripedSequence<Dna, U32>,
    r: StripedSequence<Dna, U32>,
}

/// Layout of the striped sequences handed to the scoring routines: 0 = as striped and configured once;
/// 1 = configured for a WIDER motif first (look-ahead rows in excess, then configured again for the actual one);
/// 2 = hand-built through `StripedSequence::new` with two spare sequence rows.
fn relayout(s: StripedSequence<Dna, U32>, syms: &[Nucleotide], wrap: usize, layout: usize) -> StripedSequence<Dna, U32> {
    let mut s = s;
    match layout {
        1 => {
            s.configure_wrap(wrap + 4);
        }
        2 => {
            let rows = s.matrix().rows() - s.wrap() + 2;
            let mut m = lightmotif::dense::DenseMatrix::<Nucleotide, U32>::new(rows);
            for (i, &x) in syms.iter().enumerate() {
                m[i % rows][i / rows] = x;
            }
            s = StripedSequence::new(m, syms.len()).expect("StripedSequence::new rejected a matrix with spare rows");
        }
        _ => {}
    }
    s.configure_wrap(wrap);
    s
}

fn stripe_pair_layout(pl: Pl, seq: &[u8], wrap: usize, layout: usize) -> Result<Striped, String> {
    let syms: Vec<Nucleotide> = pm::to_symbols::<Dna>(seq);
    let rsyms: Vec<Nucleotide> = pm::to_symbols::<Dna>(&pm::ref_rc_seq(seq));
    catch(|| {
        let (s, r): (StripedSequence<Dna, U32>, StripedSequence<Dna, U32>) = match pl {
            Pl::Generic => {
                let g = Pipeline::<Dna, Generic>::generic();
                (g.stripe(&syms), g.stripe(&rsyms))
            }
            Pl::Arm(arm) => pm::with_arm(arm, || (EncodedSequence::<Dna>::new(syms.clone()).to_striped(), EncodedSequence::<Dna>::new(rsyms.clone()).to_striped())),
        };
        Striped { s: relayout(s, &syms, wrap, layout), r: relayout(r, &rsyms, wrap, layout) }
    })
}

fn stripe_pair(pl: Pl, seq: &[u8], wrap: usize) -> Result<Striped, String> {
    let syms: Vec<Nucleotide> = pm::to_symbols::<Dna>(seq);
    let rsyms: Vec<Nucleotide> = pm::to_symbols::<Dna>(&pm::ref_rc_seq(seq));
    catch(|| {
        let (mut s, mut r): (StripedSequence<Dna, U32>, StripedSequence<Dna, U32>) = match pl {
            Pl::Generic => {
                let g = Pipeline::<Dna, Generic>::generic();
                (g.stripe(&syms), g.stripe(&rsyms))
            }
            Pl::Arm(arm) => pm::with_arm(arm, || {
                (
                    EncodedSequence::<Dna>::new(syms.clone()).to_striped(),
                    EncodedSequence::<Dna>::new(rsyms.clone()).to_striped(),
                )
            }),
        };
        s.configure_wrap(wrap);
        r.configure_wrap(wrap);
        Striped { s, r }
    })
}

/// Score `m` on `st` through pipeline `pl` into `out`.
fn score_with(
    pl: Pl,
    m: &ScoringMatrix<Dna>,
    st: &StripedSequence<Dna, U32>,
    out: &mut StripedScores<f32, U32>,
) {
    match pl {
        Pl::Generic => Pipeline::<Dna, Generic>::generic().score_into(m, st, out),
        // force the arm, then go through the dispatching constructor exactly as ScoringMatrix::score does
        Pl::Arm(arm) => pm::with_arm(arm, || {
            Pipeline::<Dna, Dispatch>::dispatch().score_into(m, st, out)
        }),
    }
}

/// One (sequence, pipeline) row of the space: every prepared matrix.  Returns (evaluations, non-trivial).
fn mirror_row(
    pl: Pl,
    seq: &[u8],
    prepared: &[Prepared],
    wrap: usize,
    rep: &mut Report,
    api_too: bool,
) -> (u64, u64) {
    let st = match stripe_pair(pl, seq, wrap) {
        Ok(st) => st,
        Err(p) => {
            rep.violation(
                format!("C10 mirror {} stripe panic {}", pl.name(), panic_class(&p)),
                format!("striping panicked: {}", p),
                || mirror_json(&prepared[0].spec, &prepared[0].cells, seq, pl, wrap),
            );
            return (0, 0);
        }
    };
    let mut a = StripedScores::<f32, U32>::empty();
    let mut b = StripedScores::<f32, U32>::empty();
    let mut evals = 0u64;
    let mut nontrivial = 0u64;
    // fast path: the whole row under one catch
    let res = catch(|| {
        let mut found: Vec<(usize, String, String)> = Vec::new();
        // the two score buffers are REUSED for every matrix of the row; so that a single case replayed alone also
        // scores into a used buffer, the forward buffer first receives the forward scores of the first matrix (only
        // that one: used symmetrically, left-over contents would cancel out in the strand comparison)
        // ... of the sequence without its last symbol: same number of rows (mostly), another number of positions
        if let Some(p0) = prepared.first() {
            match stripe_pair(pl, &seq[..seq.len().saturating_sub(1)], wrap) {
                Ok(short) => score_with(pl, &p0.m, &short.s, &mut a),
                Err(_) => score_with(pl, &p0.m, &st.s, &mut a),
            }
        }
        for (k, p) in prepared.iter().enumerate() {
            score_with(pl, &p.m, &st.s, &mut a);
            score_with(pl, &p.rc, &st.r, &mut b);
            if let Some((sig, msg)) = compare_mirror(p, seq, &a, &b) {
                found.push((k, sig, msg));
            }
            if api_too {
                // the public convenience entry point, same arm
                if let Pl::Arm(arm) = pl {
                    let (a2, b2) = pm::with_arm(arm, || (p.m.score(&st.s), p.rc.score(&st.r)));
                    if let Some((sig, msg)) = compare_mirror(p, seq, &a2, &b2) {
                        found.push((k, format!("ScoringMatrix::score {}", sig), msg));
                    }
                }
            }
        }
        found
    });
    match res {
        Ok(found) => {
            for (k, sig, msg) in found {
                rep.violation(format!("C10 mirror {} {}", pl.name(), sig), msg, || {
                    mirror_json(&prepared[k].spec, &prepared[k].cells, seq, pl, wrap)
                });
            }
        }
        Err(_) => {
            // attribute the panic to a matrix
            for p in prepared.iter() {
                let r = catch(|| {
                    let mut a = StripedScores::<f32, U32>::empty();
                    let mut b = StripedScores::<f32, U32>::empty();
                    score_with(pl, &p.m, &st.s, &mut a);
                    score_with(pl, &p.rc, &st.r, &mut b);
                });
                if let Err(pn) = r {
                    rep.violation(
                        format!("C10 mirror {} score panic {}", pl.name(), panic_class(&pn)),
                        format!("scoring panicked: {}", pn),
                        || mirror_json(&p.spec, &p.cells, seq, pl, wrap),
                    );
                    break;
                }
            }
        }
    }
    for p in prepared {
        evals += 1;
        if seq.len() >= p.width {
            nontrivial += 1;
        }
    }
    (evals, nontrivial)
}

fn prepare(specs: Vec<MatSpec>, rep: &mut Report) -> Vec<Prepared> {
    let mut out = Vec::new();
    for spec in specs {
        if let MatSpec::LogOdds(c) = &spec {
            if !c.in_domain() {
                continue;
            }
        }
        let m = match spec.build() {
            Ok(Some(m)) => m,
            Ok(None) => {
                rep.not_covered("C10: a menu background was rejected by its constructor; its scoring matrices were skipped");
                continue;
            }
            Err(p) => {
                rep.violation(format!("C10 mirror matrix construction panic {}", panic_class(&p)), format!("building a scoring matrix panicked: {}", p), || {
                    json!({"kind": "mirror", "alphabet": "dna", "matrix": spec.json(), "sequence": [], "pipeline": "generic"})
                });
                continue;
            }
        };
        let rc = match catch(|| m.reverse_complement()) {
            Ok(r) => r,
            Err(p) => {
                rep.violation(format!("C10 mirror reverse_complement panic {}", panic_class(&p)), format!("ScoringMatrix::reverse_complement panicked: {}", p), || {
                    json!({"kind": "mirror", "alphabet": "dna", "matrix": spec.json(), "sequence": [], "pipeline": "generic"})
                });
                continue;
            }
        };
        let cells = pm::cells_score(&m);
        if cells
            .iter()
            .any(|r| r.iter().any(|x| x.is_nan() || *x == f32::INFINITY))
        {
            // NaN / +inf cells are outside the scoring contract (DESIGN §6)
            continue;
        }
        let width = spec.width();
        let integer = matches!(spec, MatSpec::Int(_));
        out.push(Prepared {
            spec,
            m,
            rc,
            cells,
            width,
            integer,
        });
    }
    out
}

fn mirror_specs(quick: bool) -> Vec<MatSpec> {
    let mut specs = Vec::new();
    let ir = int_rows();
    let max_int_w = if quick { 3 } else { 4 };
    for idx in pm::matrices_upto(ir.len(), max_int_w) {
        specs.push(MatSpec::Int(idx.iter().map(|&i| ir[i].clone()).collect()));
    }
    let rows = pm::dna_count_rows();
    let pseudos = pm::dna_pseudos();
    let bgs = pm::dna_backgrounds();
    // (pseudocount index, background index) combinations
    let combos: Vec<(usize, usize)> = if quick {
        vec![(1, 0), (1, 1), (1, 3), (0, 0), (3, 4)]
    } else {
        (0..pseudos.len())
            .flat_map(|p| (0..bgs.len()).map(move |b| (p, b)))
            .collect()
    };
    for midx in pm::matrices_upto(rows.len(), 3) {
        for &(pi, bi) in &combos {
            specs.push(MatSpec::LogOdds(ChainCase {
                counts: pm::pick_rows(&rows, &midx),
                pseudo: pseudos[pi].clone(),
                bg: bgs[bi].clone(),
            }));
        }
    }
    specs
}

fn run_mirror(ctx: &mut Ctx, rep: &mut Report, index: &mut u64) {
    let quick = ctx.quick();
    rep.space(
        "mirror_scores",
        "product: ALL DNA sequences over {A,C,T,G,N} of length 0..=6 (19531; thorough 0..=7, 97656) x every menu scoring matrix with M <= 3 \
         [integer-valued matrices of width 1..=3 (thorough ..=4) over 4 rows incl. a -inf wildcard cell, built with ScoringMatrix::new; log-odds matrices counts.to_freq(p).to_scoring(bg) for every count matrix of width 1..=3 \
         over the 8-row C09 menu x 5 (pseudocount, background) combinations (thorough: all 25), points with a 0/0 row excluded] x {generic pipeline, dispatcher arms generic / sse2 / avx2 forced through force_backend + Pipeline::dispatch()} \
         (striping through the same pipeline; ScoringMatrix::score under each arm as well for the integer matrices). Oracle: both score vectors have L-M+1 entries (none when L<M), every valid position read through Index<usize> of the striped scores is the cell of the textbook formula, and \
         rc(m).score(rc(s))[L-M-i] == m.score(s)[i], exactly for integer matrices / -inf, within 2*gamma_{M-1}*sum|terms| otherwise. one evaluation = one (sequence, matrix, pipeline); non-trivial = L >= M",
    );
    let specs = mirror_specs(quick);
    let prepared = prepare(specs, rep);
    let (ints, logs): (Vec<Prepared>, Vec<Prepared>) =
        prepared.into_iter().partition(|p| p.integer);
    let wrap = ints
        .iter()
        .chain(logs.iter())
        .map(|p| p.width)
        .max()
        .unwrap_or(1)
        - 1;
    let max_len = if quick { 6 } else { 7 };
    let words = pm::all_words_upto(max_len, 5);
    for (si, seq) in words.iter().enumerate() {
        let idx = *index;
        *index += 1;
        if !ctx.mine(idx) {
            continue;
        }
        ctx.crumb(|| {
            format!(
                "C10 mirror sequence#{} {:?}",
                si,
                pm::ranks_to_text(pm::DNA_LETTERS, seq)
            )
        });
        for pl in PIPELINES {
            let (e1, n1) = mirror_row(pl, seq, &ints, wrap, rep, true);
            let (e2, n2) = mirror_row(pl, seq, &logs, wrap, rep, false);
            pm::bulk(rep, "mirror_scores", e1 + e2, n1 + n2);
        }
        if seq.len() == 5 && si % 1000 == 7 {
            rep.sample_space(2, || {
                mirror_json(
                    &logs[logs.len() / 2].spec,
                    &logs[logs.len() / 2].cells,
                    seq,
                    Pl::Arm(Forced::Avx2),
                    wrap,
                )
            });
        }
        if si % 64 == 0 && ctx.out_of_time() {
            rep.cap(format!(
                "mirror_scores: wall-clock cap at sequence #{} of {}",
                si,
                words.len()
            ));
            return;
        }
    }
}

// ---------------------------------------------------------------------------
// mirrored scores of matrices with NON-FINITE cells, and ScoringMatrix::score_position
// ---------------------------------------------------------------------------

fn nonfinite_rows() -> Vec<Vec<f32>> {
    let (n, p, q) = (f32::NEG_INFINITY, f32::INFINITY, f32::NAN);
    vec![
        vec![1.0, 2.0, 4.0, 8.0, n],
        vec![q, 1.0, n, 2.0, n],
        vec![p, -1.0, 3.0, n, 0.0],
        vec![n, p, 0.0, 5.0, q],
    ]
}

/// IEEE class of the sum of a window: the same whatever the summation order.
fn window_class(cells: &[Vec<f32>], seq: &[u8], i: usize) -> f32 {
    let m = cells.len();
    let (mut nan, mut pinf, mut ninf, mut sum) = (false, false, false, 0f32);
    for j in 0..m {
        let t = cells[j][seq[i + j] as usize];
        if t.is_nan() {
            nan = true;
        } else if t == f32::INFINITY {
            pinf = true;
        } else if t == f32::NEG_INFINITY {
            ninf = true;
        } else {
            sum += t; // small integers: exact
        }
    }
    if nan || (pinf && ninf) {
        f32::NAN
    } else if pinf {
        f32::INFINITY
    } else if ninf {
        f32::NEG_INFINITY
    } else {
        sum
    }
}

fn same_class(x: f32, y: f32) -> bool {
    (x.is_nan() && y.is_nan()) || x == y
}

/// One (sequence, pipeline) point of the non-finite space.
fn nonfinite_row(pl: Pl, seq: &[u8], prepared: &[Prepared], wrap: usize, rep: &mut Report) -> (u64, u64) {
    let mut tot = (0, 0);
    for layout in 0..3 {
        let (e, n) = nonfinite_row_layout(pl, seq, prepared, wrap, rep, layout);
        tot = (tot.0 + e, tot.1 + n);
    }
    tot
}

fn nonfinite_row_layout(pl: Pl, seq: &[u8], prepared: &[Prepared], wrap: usize, rep: &mut Report, layout: usize) -> (u64, u64) {
    let st = match stripe_pair_layout(pl, seq, wrap, layout) {
        Ok(st) => st,
        Err(p) => {
            rep.violation(
                format!("C10 mirror_nonfinite {} layout {} stripe panic {}", pl.name(), layout, panic_class(&p)),
                format!("building the striped sequences (layout {}) panicked: {}", layout, p),
                || {
                    let mut v = mirror_json(&prepared[0].spec, &prepared[0].cells, seq, pl, wrap);
                    v["kind"] = json!("mirror_nonfinite");
                    v
                },
            );
            return (0, 0);
        }
    };
    let rseq = pm::ref_rc_seq(seq);
    let mut evals = 0;
    let mut nontrivial = 0;
    for p in prepared {
        evals += 1;
        let l = seq.len();
        let m = p.width;
        let valid = if l >= m { l - m + 1 } else { 0 };
        if valid > 0 {
            nontrivial += 1;
        }
        let res = catch(|| {
            let mut a = StripedScores::<f32, U32>::empty();
            let mut b = StripedScores::<f32, U32>::empty();
            score_with(pl, &p.m, &st.s, &mut a);
            score_with(pl, &p.rc, &st.r, &mut b);
            let va: Vec<f32> = (0..valid.min(a.max_index())).map(|i| at(&a, i)).collect();
            let vb: Vec<f32> = (0..valid.min(b.max_index())).map(|i| at(&b, i)).collect();
            // the scalar entry point (same arm for striping; score_position itself is scalar)
            let pa: Vec<f32> = (0..valid).map(|i| p.m.score_position(&st.s, i)).collect();
            let pb: Vec<f32> = (0..valid).map(|i| p.rc.score_position(&st.r, i)).collect();
            // the same positions through the public by-position accessor of the striped scores (seeded change C10-u:
            // a stride taken from max_index instead of the rows differs when L mod 32 is in 1..M, e.g. L=33, M=2)
            let ia: Vec<f32> = (0..valid.min(a.max_index())).map(|i| a[i]).collect();
            let ib: Vec<f32> = (0..valid.min(b.max_index())).map(|i| b[i]).collect();
            (a.max_index(), b.max_index(), va, vb, pa, pb, ia, ib)
        });
        let fail = match res {
            Err(pn) => Some((format!("panic {}", panic_class(&pn)), format!("scoring panicked: {}", pn))),
            Ok((na, nb, va, vb, pa, pb, ia, ib)) => {
                let mut f = None;
                if na != valid || nb != valid {
                    f = Some(("score count".to_string(), format!("L={} M={}: {} / {} positions, expected {}", l, m, na, nb, valid)));
                } else {
                    for (what, x, y) in [("pipeline score", &va, &vb), ("score_position", &pa, &pb), ("scores[i] (Index<usize>)", &ia, &ib)] {
                        for i in 0..valid {
                            let (u, v) = (x[i], y[valid - 1 - i]);
                            let want = window_class(&p.cells, seq, i);
                            let wantr = window_class(&pm::cells_score(&p.rc), &rseq, valid - 1 - i);
                            if !same_class(want, wantr) {
                                // the cells of the library's reverse-complement matrix do not mirror the matrix
                                f = Some((
                                    format!("{}: cells of the reverse-complement matrix", what),
                                    format!(
                                        "the IEEE sum of the cells of window {} of s under m is {:?}, of the mirrored window {} of rc(s) under the library's rc(m) {:?} (L={}, M={})",
                                        i, want, valid - 1 - i, wantr, l, m
                                    ),
                                ));
                                break;
                            }
                            if !same_class(u, v) || !same_class(u, want) {
                                f = Some((
                                    format!("{}: mirrored non-finite score", what),
                                    format!(
                                        "{}: m at position {} of s gives {:?}, rc(m) at position {} of rc(s) gives {:?}; the IEEE sum of the window's cells (any order) is {:?} (L={}, M={})",
                                        what, i, u, valid - 1 - i, v, want, l, m
                                    ),
                                ));
                                break;
                            }
                        }
                        if f.is_some() {
                            break;
                        }
                    }
                }
                f
            }
        };
        if let Some((sig, msg)) = fail {
            let sig = if layout == 0 { sig } else { format!("{} [layout {}: {}]", sig, layout, if layout == 1 { "configured for a wider motif first" } else { "hand-built with spare rows" }) };
            rep.violation(format!("C10 mirror_nonfinite {} {}", pl.name(), sig), msg, || {
                let mut v = mirror_json(&p.spec, &p.cells, seq, pl, wrap);
                v["kind"] = json!("mirror_nonfinite");
                v
            });
        }
    }
    (evals, nontrivial)
}

fn prepare_nonfinite(specs: Vec<MatSpec>) -> Vec<Prepared> {
    let mut out = Vec::new();
    for spec in specs {
        let m = match spec.build() {
            Ok(Some(m)) => m,
            _ => continue,
        };
        let rc = match catch(|| m.reverse_complement()) {
            Ok(r) => r,
            Err(_) => continue, // reported by the involution space
        };
        let cells = pm::cells_score(&m);
        let width = spec.width();
        out.push(Prepared { spec, m, rc, cells, width, integer: true });
    }
    out
}

fn run_mirror_nonfinite(ctx: &mut Ctx, rep: &mut Report, index: &mut u64) {
    let quick = ctx.quick();
    rep.space(
        "mirror_nonfinite",
        "product: ALL DNA sequences over {A,C,T,G,N} of length 0..=5 (3906; thorough 0..=6, 19531) plus six sequences of 33, 40, 70, 100, 1024 and 2100 symbols (the last two go through the block transposition of the AVX2 striping) x every scoring matrix of width 1..=3 over a 4-row menu of small-integer cells mixed with NaN, +inf and -inf cells \
         (\"any content\"; built with ScoringMatrix::new) x {generic pipeline, dispatcher arms generic / sse2 / avx2} x {pipeline score_into read by the textbook formula, the same read through Index<usize> of the striped scores, scalar ScoringMatrix::score_position} x striped-sequence layouts {configured once; configured for a wider motif first; hand-built with two spare sequence rows}. \
         Oracle: the IEEE sum of a window's cells has the same class in every summation order (NaN if a NaN cell or both infinities occur, else +inf / -inf / the exact integer sum): \
         position i of m on s and position L-M-i of rc(m) on rc(s) both equal that value (NaN matches NaN)",
    );
    let ir = nonfinite_rows();
    let specs: Vec<MatSpec> = pm::matrices_upto(ir.len(), 3).into_iter().map(|idx| MatSpec::Int(idx.iter().map(|&i| ir[i].clone()).collect())).collect();
    let prepared = prepare_nonfinite(specs);
    let wrap = 2;
    let mut words = pm::all_words_upto(if quick { 5 } else { 6 }, 5);
    // a few sequences longer than one striped row (the layouts only differ from each other there): 33, 40, 70 and 100 symbols
    for &l in &[33usize, 40, 70, 100, 1024, 2100] {
        words.push((0..l).map(|i| if i % 11 == 10 { 4u8 } else { ((i * i + 3 * i + l) % 4) as u8 }).collect());
    }
    for (si, seq) in words.iter().enumerate() {
        let idx = *index;
        *index += 1;
        if !ctx.mine(idx) {
            continue;
        }
        for pl in PIPELINES {
            let (e, n) = nonfinite_row(pl, seq, &prepared, wrap, rep);
            pm::bulk(rep, "mirror_nonfinite", e, n);
        }
        if seq.len() == 4 && si % 200 == 3 {
            rep.sample_space(2, || {
                let p = &prepared[prepared.len() / 2];
                let mut v = mirror_json(&p.spec, &p.cells, seq, Pl::Generic, wrap);
                v["kind"] = json!("mirror_nonfinite");
                v
            });
        }
        if si % 64 == 0 && ctx.out_of_time() {
            rep.cap(format!("mirror_nonfinite: wall-clock cap at sequence #{} of {}", si, words.len()));
            return;
        }
    }
}

// ---------------------------------------------------------------------------
// frequency matrices given directly (FrequencyMatrix::new), rows summing to one only within the tolerance
// ---------------------------------------------------------------------------

fn freq_rows_menu() -> Vec<Vec<f32>> {
    vec![
        vec![0.25, 0.25, 0.25, 0.25, 0.0],  // exactly one
        vec![0.125, 0.375, 0.25, 0.248, 0.0], // 0.998
        vec![0.7, 0.1, 0.101, 0.101, 0.0],  // 1.002
        vec![0.333, 0.333, 0.166, 0.163, 0.0], // 0.995
        vec![0.4, 0.3, 0.2, 0.05, 0.055],   // 1.005, wildcard mass
    ]
}

fn check_freq_direct(rows: &[Vec<f32>], fails: &mut Fails) -> bool {
    use lightmotif::pwm::FrequencyMatrix;
    let fm = match catch(|| FrequencyMatrix::<Dna>::new(pm::dense_f32::<Dna>(rows))) {
        Ok(Ok(fm)) => fm,
        // acceptance is not demanded
        Ok(Err(_)) => return false,
        Err(p) => {
            push(fails, format!("FrequencyMatrix::new panic {}", panic_class(&p)), p);
            return true;
        }
    };
    let cells = |m: &FrequencyMatrix<Dna>| -> Vec<Vec<f32>> { m.matrix().iter().map(|r| r.to_vec()).collect() };
    match catch(|| {
        let r = fm.reverse_complement();
        let rr = r.reverse_complement();
        let mut routes = Vec::new();
        for bg in [Background::<Dna>::uniform(), Background::<Dna>::new([0.375, 0.125, 0.375, 0.125, 0.0]).unwrap()] {
            let a: Vec<Vec<f32>> = r.to_scoring(bg.clone()).matrix().iter().map(|x| x.to_vec()).collect();
            let b: Vec<Vec<f32>> = fm.to_scoring(bg).reverse_complement().matrix().iter().map(|x| x.to_vec()).collect();
            routes.push((a, b));
        }
        (cells(&r), cells(&rr), routes)
    }) {
        Ok((r, rr, routes)) => {
            let orig = cells(&fm);
            if bits(&rr) != bits(&orig) {
                push(fails, "frequency (given directly) rc(rc(m)) != m".into(), format!("frequency matrix {:?}: rc(rc(m)) = {:?}", orig, rr));
            }
            let want = pm::ref_rc(&orig);
            if bits(&r) != bits(&want) {
                push(fails, "frequency (given directly) rc(m) differs from the definition".into(), format!("frequency matrix {:?}: rc(m) = {:?}, expected {:?}", orig, r, want));
            }
            for (a, b) in routes {
                // element-wise log-odds under a strand-symmetric background: the two routes are the same arithmetic per cell
                if bits(&a) != bits(&b) {
                    push(
                        fails,
                        "frequency (given directly) rc does not commute with to_scoring".into(),
                        format!("frequency matrix {:?}: rc(m).to_scoring = {:?} but rc(m.to_scoring) = {:?}", orig, a, b),
                    );
                }
            }
        }
        Err(p) => push(fails, format!("frequency (given directly) panic {}", panic_class(&p)), p),
    }
    true
}

fn run_freq_direct(ctx: &mut Ctx, rep: &mut Report, index: &mut u64) {
    rep.space(
        "frequency_direct",
        "frequency matrices given DIRECTLY through FrequencyMatrix::new (not derived from counts): all matrices of width 1..=3 over a 5-row menu whose rows sum to 1, 0.998, 1.002, 0.995, 1.005 \
         (inside the documented 0.01 tolerance; one row with wildcard mass): rc(rc(m)) == m bit for bit, rc(m) == rows reversed + columns complemented, rc commutes bit for bit with to_scoring under two strand-symmetric backgrounds; \
         matrices the constructor rejects are skipped (acceptance is not demanded)",
    );
    let menu = freq_rows_menu();
    for w in 1..=3usize {
        let n = (menu.len() as u64).pow(w as u32);
        for mi in 0..n {
            let idx = *index;
            *index += 1;
            if !ctx.mine(idx) {
                continue;
            }
            let mut k = mi;
            let rows: Vec<Vec<f32>> = (0..w)
                .map(|_| {
                    let r = menu[(k % menu.len() as u64) as usize].clone();
                    k /= menu.len() as u64;
                    r
                })
                .collect();
            let mut fails = Fails::new();
            let in_domain = check_freq_direct(&rows, &mut fails);
            rep.eval_distinct(in_domain);
            for (sig, msg) in fails {
                rep.violation(format!("C10 {}", sig), msg, || json!({"kind": "frequency_direct", "rows": pm::matrix_to_json(&rows)}));
            }
            if w == 2 && mi == 7 {
                rep.sample_space(1, || json!({"kind": "frequency_direct", "rows": pm::matrix_to_json(&rows)}));
            }
        }
    }
}

// ---------------------------------------------------------------------------
// matrices cut down with DenseMatrix::resize before being wrapped; other lane counts
// ---------------------------------------------------------------------------

/// rc of a Count / Scoring matrix built from a DenseMatrix that held `extra` more rows and was cut down with `resize`.
fn check_trimmed(rows: &[Vec<f32>], extra: usize, fails: &mut Fails) {
    use lightmotif::dense::DenseMatrix;
    use lightmotif::num::U5;
    let k = 5usize;
    let mut all: Vec<Vec<f32>> = rows.to_vec();
    for e in 0..extra {
        all.push((0..k).map(|j| 100.0 + (e * k + j) as f32).collect());
    }
    let want = pm::ref_rc(rows);
    // scoring matrix
    match catch(|| {
        let mut d = DenseMatrix::<f32, U5>::from_rows(all.iter().map(|r| r.as_slice()).collect::<Vec<_>>());
        d.resize(rows.len());
        let m = ScoringMatrix::<Dna>::new(Background::uniform(), d);
        let r = m.reverse_complement();
        (pm::cells_score(&r), pm::cells_score(&r.reverse_complement()))
    }) {
        Err(p) => push(fails, format!("trimmed scoring matrix panic {}", panic_class(&p)), format!("reverse_complement of a scoring matrix cut down from {} to {} rows panicked: {}", all.len(), rows.len(), p)),
        Ok((r, rr)) => {
            if bits(&r) != bits(&want) {
                push(fails, "trimmed scoring rc(m) differs from the definition".into(), format!("matrix {:?} (cut down from {} rows): rc(m) = {:?}", rows, all.len(), r));
            } else if bits(&rr) != bits(&rows.to_vec()) {
                push(fails, "trimmed scoring rc(rc(m)) != m".into(), format!("matrix {:?} (cut down from {} rows): rc(rc(m)) = {:?}", rows, all.len(), rr));
            }
        }
    }
    // count matrix (cells as counts)
    let counts: Vec<Vec<u32>> = all.iter().map(|r| r.iter().map(|x| x.abs() as u32).collect()).collect();
    let wantc = pm::ref_rc(&counts[..rows.len()].to_vec());
    match catch(|| {
        let mut d = DenseMatrix::<u32, U5>::from_rows(counts.iter().map(|r| r.as_slice()).collect::<Vec<_>>());
        d.resize(rows.len());
        let m = CountMatrix::<Dna>::new(d).map_err(|_| ()).expect("count matrix");
        let r = m.reverse_complement();
        r.matrix().iter().map(|x| x.to_vec()).collect::<Vec<Vec<u32>>>()
    }) {
        Err(p) => push(fails, format!("trimmed count matrix panic {}", panic_class(&p)), format!("reverse_complement of a count matrix cut down from {} to {} rows panicked: {}", all.len(), rows.len(), p)),
        Ok(r) => {
            if r != wantc {
                push(fails, "trimmed count rc(m) differs from the definition".into(), format!("counts {:?} (cut down from {} rows): rc(m) = {:?}", &counts[..rows.len()], all.len(), r));
            }
        }
    }
}

/// The mirror law under another lane count, for one pipeline: scores of m on s at i == scores of rc(m) on rc(s) at L-M-i
/// (integer matrices: exact).
fn mirror_lanes<C, P>(p: &P, m: &ScoringMatrix<Dna>, rc: &ScoringMatrix<Dna>, seq: &[u8]) -> Option<String>
where
    C: lightmotif::num::PositiveLength,
    P: Score<f32, Dna, C>,
{
    let g = Pipeline::<Dna, Generic>::generic();
    let fwd = pm::to_symbols::<Dna>(seq);
    let rev = pm::to_symbols::<Dna>(&pm::ref_rc_seq(seq));
    let mut s: StripedSequence<Dna, C> = g.stripe(&fwd);
    let mut r: StripedSequence<Dna, C> = g.stripe(&rev);
    s.configure(m);
    r.configure(rc);
    let a = p.score(m, &s).unstripe().to_vec();
    let b = p.score(rc, &r).unstripe().to_vec();
    let l = seq.len();
    let w = m.len();
    let valid = if l >= w { l - w + 1 } else { 0 };
    if a.len() != valid || b.len() != valid {
        return Some(format!("L={} M={}: {} / {} scores, expected {}", l, w, a.len(), b.len(), valid));
    }
    (0..valid).find(|&i| !same_class(a[i], b[valid - 1 - i])).map(|i| format!("m.score(s)[{}] = {:?} but rc(m).score(rc(s))[{}] = {:?} (L={}, M={})", i, a[i], valid - 1 - i, b[valid - 1 - i], l, w))
}

fn check_lanes(rows: &[Vec<f32>], seq: &[u8], fails: &mut Fails) {
    use lightmotif::num::{U16, U48, U64};
    use lightmotif::pli::platform::Sse2;
    let m = ScoringMatrix::<Dna>::new(Background::uniform(), pm::dense_f32::<Dna>(rows));
    let rc = match catch(|| m.reverse_complement()) {
        Ok(r) => r,
        Err(_) => return, // reported by the matrix-level spaces
    };
    let g = Pipeline::<Dna, Generic>::generic();
    let sse = Pipeline::<Dna, Sse2>::sse2();
    let mut run = |name: &str, res: Result<Option<String>, String>| match res {
        Ok(None) => {}
        Ok(Some(msg)) => push(fails, format!("lanes {} mirrored score differs", name), msg),
        Err(p) => push(fails, format!("lanes {} panic {}", name, panic_class(&p)), p),
    };
    run("generic/U16", catch(|| mirror_lanes::<U16, _>(&g, &m, &rc, seq)));
    run("generic/U48", catch(|| mirror_lanes::<U48, _>(&g, &m, &rc, seq)));
    run("generic/U64", catch(|| mirror_lanes::<U64, _>(&g, &m, &rc, seq)));
    if let Ok(sse) = sse {
        run("sse2/U16", catch(|| mirror_lanes::<U16, _>(&sse, &m, &rc, seq)));
        run("sse2/U48", catch(|| mirror_lanes::<U48, _>(&sse, &m, &rc, seq)));
        run("sse2/U64", catch(|| mirror_lanes::<U64, _>(&sse, &m, &rc, seq)));
    }
}

fn run_trimmed_and_lanes(ctx: &mut Ctx, rep: &mut Report, index: &mut u64) {
    let ir = int_rows();
    if ctx.wants("trimmed") {
        rep.space(
            "trimmed",
            "scoring and count matrices built from a DenseMatrix that held 1 / 3 more rows and was cut down with DenseMatrix::resize before ScoringMatrix::new / CountMatrix::new: all integer matrices of width 1..=2 from the mirror row menu; \
             rc(m) == rows reversed + columns complemented, rc(rc(m)) == m, no panic",
        );
        for idx_rows in pm::matrices_upto(ir.len(), 2) {
            for extra in [1usize, 3] {
                let idx = *index;
                *index += 1;
                if !ctx.mine(idx) {
                    continue;
                }
                let rows: Vec<Vec<f32>> = idx_rows.iter().map(|&i| ir[i].clone()).collect();
                let mut fails = Fails::new();
                check_trimmed(&rows, extra, &mut fails);
                rep.eval_distinct(true);
                for (sig, msg) in fails {
                    rep.violation(format!("C10 {}", sig), msg, || json!({"kind": "trimmed", "rows": pm::matrix_to_json(&rows), "extra": extra}));
                }
            }
        }
    }
    if ctx.wants("lanes") {
        rep.space(
            "lanes",
            "the mirror law under the other lane counts the generic and SSE2 pipelines accept (16, 48, 64 columns): all integer matrices of width 1..=2 (thorough 3) from the mirror row menu x sequences of 1 / 47 / 48 / 49 / 100 / 200 symbols (wildcard included); exact comparison",
        );
        let maxw = if ctx.quick() { 2 } else { 3 };
        for idx_rows in pm::matrices_upto(ir.len(), maxw) {
            let idx = *index;
            *index += 1;
            if !ctx.mine(idx) {
                continue;
            }
            let rows: Vec<Vec<f32>> = idx_rows.iter().map(|&i| ir[i].clone()).collect();
            for &l in &[1usize, 47, 48, 49, 100, 200] {
                let seq: Vec<u8> = (0..l).map(|i| ((i * 7 + i / 5 + (i % 11 == 4) as usize * 3) % 5) as u8).collect();
                let mut fails = Fails::new();
                check_lanes(&rows, &seq, &mut fails);
                rep.eval_distinct(l >= rows.len());
                for (sig, msg) in fails {
                    rep.violation(format!("C10 {}", sig), msg, || json!({"kind": "lanes", "rows": pm::matrix_to_json(&rows), "sequence": seq}));
                }
            }
        }
    }
}

// ---------------------------------------------------------------------------
// entry points
// ---------------------------------------------------------------------------

pub fn run(ctx: &mut Ctx, rep: &mut Report) {
    pm::assert_wildcard_last::<Dna>();
    let mut index = 0u64;
    run_matrix_level(ctx, rep, &mut index);
    pm::report_slack("C10 involution+commutation");
    if ctx.wants("frequency_direct") {
        run_freq_direct(ctx, rep, &mut index);
    }
    if ctx.wants("mirror_scores") && !ctx.out_of_time() {
        run_mirror(ctx, rep, &mut index);
        pm::report_slack("C10 mirror_scores");
    }
    if ctx.wants("mirror_nonfinite") && !ctx.out_of_time() {
        run_mirror_nonfinite(ctx, rep, &mut index);
    }
    if !ctx.out_of_time() {
        run_trimmed_and_lanes(ctx, rep, &mut index);
    }
}

pub fn replay(_ctx: &mut Ctx, rep: &mut Report, case: &Value) {
    rep.space("replay", "replay of one recorded case");
    rep.eval_distinct(true);
    match case["kind"].as_str().unwrap() {
        "involution" => {
            let c = ChainCase::from_json(case);
            let mut fails = Fails::new();
            check_involution(&c, &mut fails);
            for (sig, msg) in fails {
                rep.violation(format!("C10 involution {}", sig), msg, || {
                    c.json("involution", &sig)
                });
            }
        }
        "frequency_direct" => {
            let rows = pm::matrix_from_json(&case["rows"]);
            let mut fails = Fails::new();
            check_freq_direct(&rows, &mut fails);
            for (sig, msg) in fails {
                rep.violation(format!("C10 {}", sig), msg, || json!({"kind": "frequency_direct", "rows": pm::matrix_to_json(&rows)}));
            }
        }
        "commutation" => {
            let c = ChainCase::from_json(case);
            let mut fails = Fails::new();
            check_commutation(&c, &mut fails);
            for (sig, msg) in fails {
                rep.violation(format!("C10 commutation {}", sig), msg, || {
                    c.json("commutation", &sig)
                });
            }
        }
        "mirror" => {
            let spec = MatSpec::from_json(&case["matrix"]);
            let seq = pm::ranks_from_json(&case["sequence"]);
            let pl =
                Pl::from_name(case["pipeline"].as_str().unwrap()).expect("unknown pipeline name");
            let prepared = prepare(vec![spec], rep);
            if prepared.is_empty() {
                return;
            }
            let wrap = case["wrap_rows"]
                .as_u64()
                .map(|x| x as usize)
                .unwrap_or(prepared[0].width.max(1) - 1)
                .max(prepared[0].width.max(1) - 1);
            mirror_row(pl, &seq, &prepared, wrap, rep, true);
        }
        "involution_from_sequences" => {
            let seqs: Vec<Vec<u8>> = case["sequences"].as_array().unwrap().iter().map(pm::ranks_from_json).collect();
            let res = catch(|| {
                let enc: Vec<EncodedSequence<Dna>> = seqs.iter().map(|s| EncodedSequence::<Dna>::new(pm::to_symbols::<Dna>(s))).collect();
                let cm = lightmotif::pwm::CountMatrix::<Dna>::from_sequences(enc).map_err(|_| ()).expect("equal lengths");
                let rr = cm.reverse_complement().reverse_complement();
                (rr == cm, cm.sequence_count(), rr.sequence_count())
            });
            match res {
                Ok((eq, n0, n2)) if eq && n0 == n2 => {}
                Ok((eq, n0, n2)) => rep.violation("C10 involution count (from_sequences) rc(rc(m)) != m".to_string(), format!("rc(rc(m)) == m says {}, sequence_count {} -> {}", eq, n0, n2), || case.clone()),
                Err(p) => rep.violation(format!("C10 involution count (from_sequences) panic {}", panic_class(&p)), p, || case.clone()),
            }
        }
        "mirror_nonfinite" => {
            let spec = MatSpec::from_json(&case["matrix"]);
            let seq = pm::ranks_from_json(&case["sequence"]);
            let pl = Pl::from_name(case["pipeline"].as_str().unwrap()).expect("unknown pipeline name");
            let prepared = prepare_nonfinite(vec![spec]);
            if !prepared.is_empty() {
                nonfinite_row(pl, &seq, &prepared, 2, rep);
            }
        }
        "trimmed" => {
            let rows = pm::matrix_from_json(&case["rows"]);
            let mut fails = Fails::new();
            check_trimmed(&rows, case["extra"].as_u64().unwrap_or(1) as usize, &mut fails);
            for (sig, msg) in fails {
                rep.violation(format!("C10 {}", sig), msg, || case.clone());
            }
        }
        "lanes" => {
            let rows = pm::matrix_from_json(&case["rows"]);
            let seq = pm::ranks_from_json(&case["sequence"]);
            let mut fails = Fails::new();
            check_lanes(&rows, &seq, &mut fails);
            for (sig, msg) in fails {
                rep.violation(format!("C10 {}", sig), msg, || case.clone());
            }
        }
        k => panic!("C10 replay: unknown case kind {}", k),
    }
}
