//! Shared pieces of the C09 / C10 checkers: reference model of the
//! count -> frequency -> weight -> log-odds chain (plain f64, written from the
//! definitions in the property statement, independent of the library code),
//! the input menus of DESIGN §C09, derived float tolerances, JSON helpers and
//! the dispatcher-arm forcing helper.

#![allow(dead_code)]

use generic_array::GenericArray;
use lightmotif::abc::{Alphabet, Background, Symbol};
use lightmotif::dense::DenseMatrix;
use lightmotif::num::Unsigned;
use lightmotif::pwm::{CountMatrix, FrequencyMatrix, ScoringMatrix, WeightMatrix};
use lightmotif::verif::{force_backend, Forced};
use serde_json::{json, Value};
use vx_core::Report;

// ---------------------------------------------------------------------------
// alphabets
// ---------------------------------------------------------------------------

pub const DNA_LETTERS: &[u8] = b"ACTGN";
pub const PROTEIN_LETTERS: &[u8] = b"ACDEFGHIKLMNPQRSTVWYX";

/// DNA complement on ranks (symbol order A,C,T,G,N): A<->T, C<->G, N<->N.
pub const DNA_COMPLEMENT: [usize; 5] = [2, 3, 0, 1, 4];

pub fn k_of<A: Alphabet>() -> usize {
    A::K::USIZE
}

/// The reference model takes the wildcard to be the *last* symbol (N / X).
/// Machinery sanity: the library agrees (otherwise nothing below means anything).
pub fn assert_wildcard_last<A: Alphabet>() {
    assert_eq!(
        A::default_symbol().as_index(),
        k_of::<A>() - 1,
        "harness assumption: wildcard is the last symbol"
    );
    for (i, s) in A::symbols().iter().enumerate() {
        assert_eq!(
            s.as_index(),
            i,
            "harness assumption: symbols() is in rank order"
        );
    }
}

pub fn to_symbols<A: Alphabet>(ranks: &[u8]) -> Vec<A::Symbol> {
    let syms = A::symbols();
    ranks.iter().map(|&r| syms[r as usize]).collect()
}

pub fn ranks_to_text(letters: &[u8], ranks: &[u8]) -> String {
    ranks.iter().map(|&r| letters[r as usize] as char).collect()
}

pub fn letters_of(alpha: &str) -> &'static [u8] {
    if alpha == "dna" {
        DNA_LETTERS
    } else {
        PROTEIN_LETTERS
    }
}

/// All words of length `len` over `k` symbols by index (mixed radix, last position fastest).
pub fn nth_word(mut index: u64, len: usize, k: usize) -> Vec<u8> {
    let mut v = vec![0u8; len];
    for i in (0..len).rev() {
        v[i] = (index % k as u64) as u8;
        index /= k as u64;
    }
    v
}

/// All sequences of length <= max_len over k symbols, shortest first.
pub fn all_words_upto(max_len: usize, k: usize) -> Vec<Vec<u8>> {
    let mut out = Vec::new();
    for len in 0..=max_len {
        let n = (k as u64).pow(len as u32);
        for i in 0..n {
            out.push(nth_word(i, len, k));
        }
    }
    out
}

// ---------------------------------------------------------------------------
// float tolerances (derived, see each use)
// ---------------------------------------------------------------------------

/// Unit roundoff of f32 (half an ulp of 1.0): every correctly rounded f32
/// operation returns x(1+d) with |d| <= U.
pub const U: f64 = 5.960464477539063e-8; // 2^-24

/// Higham's gamma_n = n u / (1 - n u): bound on the relative error accumulated
/// by n correctly rounded f32 operations.
pub fn gamma(n: usize) -> f64 {
    let x = n as f64 * U;
    x / (1.0 - x)
}

/// Relative error of a library frequency cell w.r.t. (count+pseudo)/total:
/// one rounding for `count as f32 + pseudo`, at most K-1 roundings in the row
/// sum (all terms are non-negative, so the sum's relative error is bounded by
/// gamma_{K-1} on top of its terms' own rounding), one for the division
/// => gamma_{K+2} (counts < 2^24 convert exactly).
pub fn tol_freq_rel(k: usize) -> f64 {
    gamma(k + 2)
}

/// Weight = frequency / background: one more correctly rounded division.
pub fn tol_weight_rel(k: usize) -> f64 {
    gamma(k + 3)
}

/// Weight through `rescale`: f/b0 (1), b0/b (1), product (1) on top of the frequency.
pub fn tol_rescaled_weight_rel(k: usize) -> f64 {
    gamma(k + 5)
}

/// Relative error budget for evaluating the logarithm itself: libm logf/log2f
/// are < 1 ulp, log10f <= 2 ulp; `f32::log(base)` is ln(x)/ln(base), i.e. two
/// logarithms (<= 1 ulp = 2u each) and one division (u) ~ 5u.  Budget: 4 ulp = 8u.
pub const LOG_EVAL_REL: f64 = 8.0 * U;

/// Tolerance on a log-odds cell whose argument carries relative error `eta`:
/// log_B(w(1+e)) - log_B(w) = ln(1+e)/ln B, |ln(1+e)| <= eta/(1-eta).
pub fn tol_score(exact: f64, eta: f64, base: f64) -> f64 {
    (eta / (1.0 - eta)) / base.ln().abs() + LOG_EVAL_REL * exact.abs()
}

/// Recursive-summation bound for an M-term f32 sum with sum of |terms| = abs_sum.
pub fn sum_bound(m: usize, abs_sum: f64) -> f64 {
    if m <= 1 {
        return 0.0;
    }
    gamma(m - 1) * abs_sum
}

thread_local! {
    static SLACK: std::cell::Cell<f64> = const { std::cell::Cell::new(0.0) };
}

/// Diagnostic only: remember the largest observed error / tolerance ratio of
/// the comparisons that passed or failed with a positive tolerance (printed
/// to stderr when VX_SLACK is set; decides nothing).
#[inline]
pub fn note_slack(err: f64, tol: f64) {
    if tol > 0.0 && err.is_finite() {
        let r = err / tol;
        SLACK.with(|c| {
            if r > c.get() {
                c.set(r)
            }
        });
    }
}

pub fn report_slack(what: &str) {
    if std::env::var_os("VX_SLACK").is_some() {
        eprintln!(
            "{}: largest |error| / tolerance over all toleranced comparisons = {:.4}",
            what,
            SLACK.with(|c| c.get())
        );
    }
    SLACK.with(|c| c.set(0.0));
}

/// Classify a value for signatures / messages.
pub fn class_of(x: f32) -> &'static str {
    if x.is_nan() {
        "NaN"
    } else if x == f32::INFINITY {
        "+inf"
    } else if x == f32::NEG_INFINITY {
        "-inf"
    } else {
        "finite"
    }
}

/// Compare a library f32 with an exact f64 expectation under an absolute
/// tolerance.  Infinite expectations must be matched exactly; an exact zero
/// expectation with tolerance 0 must be matched exactly.
/// Err(class) describes the discrepancy class.
pub fn close(got: f32, exp: f64, tol: f64) -> Result<(), String> {
    if exp.is_infinite() {
        if (got as f64) == exp {
            return Ok(());
        }
        return Err(format!(
            "got {}, expected {}",
            class_of(got),
            if exp > 0.0 { "+inf" } else { "-inf" }
        ));
    }
    if !got.is_finite() {
        return Err(format!(
            "got {}, expected {}",
            class_of(got),
            if exp == 0.0 { "0" } else { "finite" }
        ));
    }
    note_slack(((got as f64) - exp).abs(), tol);
    if ((got as f64) - exp).abs() <= tol {
        Ok(())
    } else if exp == 0.0 {
        Err("got non-zero, expected 0".to_string())
    } else {
        Err("outside derived tolerance".to_string())
    }
}

// ---------------------------------------------------------------------------
// reference model (f64, from the definitions)
// ---------------------------------------------------------------------------

/// frequency rows: (count + pseudo) / row total; `None` for a row whose total
/// is 0 (0/0: outside the domain of the property).
pub fn ref_freq(counts: &[Vec<u32>], pseudo: &[f64]) -> Vec<Option<Vec<f64>>> {
    counts
        .iter()
        .map(|row| {
            let t: Vec<f64> = row
                .iter()
                .zip(pseudo)
                .map(|(&c, &p)| c as f64 + p)
                .collect();
            let total: f64 = t.iter().sum();
            if total == 0.0 {
                None
            } else {
                Some(t.iter().map(|x| x / total).collect())
            }
        })
        .collect()
}

/// weight: frequency / background, 0 where the background is 0.
pub fn ref_weight(f: f64, b: f64) -> f64 {
    if b == 0.0 {
        0.0
    } else {
        f / b
    }
}

/// score: log_base(weight), -inf where the background is 0 (and where the weight is 0).
pub fn ref_score(f: f64, b: f64, base: f64) -> f64 {
    if b == 0.0 {
        return f64::NEG_INFINITY;
    }
    let w = f / b;
    if w == 0.0 {
        return f64::NEG_INFINITY;
    }
    if base == 2.0 {
        w.log2()
    } else if base == 10.0 {
        w.log10()
    } else {
        w.ln() / base.ln()
    }
}

/// Reverse complement of a matrix given as rows (DNA ranks): row i of the result
/// is row M-1-i of the input with columns permuted by the complement.
pub fn ref_rc<T: Copy>(rows: &[Vec<T>]) -> Vec<Vec<T>> {
    rows.iter()
        .rev()
        .map(|r| (0..5).map(|s| r[DNA_COMPLEMENT[s]]).collect())
        .collect()
}

/// Reverse complement of a DNA sequence given as ranks.
pub fn ref_rc_seq(s: &[u8]) -> Vec<u8> {
    s.iter()
        .rev()
        .map(|&x| DNA_COMPLEMENT[x as usize] as u8)
        .collect()
}

// ---------------------------------------------------------------------------
// input specifications (explicit, JSON round-trippable)
// ---------------------------------------------------------------------------

#[derive(Clone, Debug, PartialEq)]
pub enum BgSpec {
    Uniform,
    New(Vec<f32>),
    FromCounts(Vec<usize>),
}

impl BgSpec {
    pub fn json(&self) -> Value {
        match self {
            BgSpec::Uniform => json!({"kind": "uniform"}),
            BgSpec::New(v) => json!({"kind": "new", "frequencies": f32s_to_json(v)}),
            BgSpec::FromCounts(c) => json!({"kind": "from_counts", "counts": c}),
        }
    }

    pub fn from_json(v: &Value) -> BgSpec {
        match v["kind"].as_str().unwrap() {
            "uniform" => BgSpec::Uniform,
            "new" => BgSpec::New(f32s_from_json(&v["frequencies"])),
            "from_counts" => BgSpec::FromCounts(
                v["counts"]
                    .as_array()
                    .unwrap()
                    .iter()
                    .map(|x| x.as_u64().unwrap() as usize)
                    .collect(),
            ),
            k => panic!("unknown background kind {}", k),
        }
    }

    /// The frequencies this specification denotes, as the f32 values the
    /// library is handed / documented to compute (f32 division is correctly
    /// rounded, hence deterministic).
    pub fn reference(&self, k: usize) -> Vec<f32> {
        match self {
            BgSpec::Uniform => (0..k)
                .map(|i| {
                    if i == k - 1 {
                        0.0
                    } else {
                        1.0f32 / ((k - 1) as f32)
                    }
                })
                .collect(),
            BgSpec::New(v) => v.clone(),
            BgSpec::FromCounts(c) => {
                let t: usize = c.iter().sum();
                c.iter().map(|&x| x as f32 / t as f32).collect()
            }
        }
    }

    pub fn build<A: Alphabet>(&self) -> Result<Background<A>, ()> {
        match self {
            BgSpec::Uniform => Ok(Background::<A>::uniform()),
            BgSpec::New(v) => {
                let arr: GenericArray<f32, A::K> = v.iter().cloned().collect();
                Background::<A>::new(arr).map_err(|_| ())
            }
            BgSpec::FromCounts(c) => {
                let arr: GenericArray<usize, A::K> = c.iter().cloned().collect();
                Background::<A>::from_counts(&arr).map_err(|_| ())
            }
        }
    }
}

#[derive(Clone, Debug, PartialEq)]
pub enum PseudoSpec {
    /// `to_freq(p)` with a scalar: p on every non-wildcard symbol, 0 on the wildcard
    /// (the documented meaning of a scalar pseudocount, mirroring the uniform background).
    Scalar(f32),
    /// `to_freq(GenericArray)`: one pseudocount per symbol.
    PerSymbol(Vec<f32>),
}

impl PseudoSpec {
    pub fn json(&self) -> Value {
        match self {
            PseudoSpec::Scalar(p) => json!({"kind": "scalar", "value": f32_to_json(*p)}),
            PseudoSpec::PerSymbol(v) => json!({"kind": "per_symbol", "values": f32s_to_json(v)}),
        }
    }

    pub fn from_json(v: &Value) -> PseudoSpec {
        match v["kind"].as_str().unwrap() {
            "scalar" => PseudoSpec::Scalar(f32_from_json(&v["value"])),
            "per_symbol" => PseudoSpec::PerSymbol(f32s_from_json(&v["values"])),
            k => panic!("unknown pseudocount kind {}", k),
        }
    }

    pub fn reference(&self, k: usize) -> Vec<f64> {
        match self {
            PseudoSpec::Scalar(p) => (0..k)
                .map(|i| if i == k - 1 { 0.0 } else { *p as f64 })
                .collect(),
            PseudoSpec::PerSymbol(v) => v.iter().map(|&x| x as f64).collect(),
        }
    }

    pub fn to_freq<A: Alphabet>(&self, cm: &CountMatrix<A>) -> FrequencyMatrix<A> {
        match self {
            PseudoSpec::Scalar(p) => cm.to_freq(*p),
            PseudoSpec::PerSymbol(v) => {
                let arr: GenericArray<f32, A::K> = v.iter().cloned().collect();
                cm.to_freq(arr)
            }
        }
    }
}

// ---------------------------------------------------------------------------
// library object construction / extraction
// ---------------------------------------------------------------------------

pub fn count_matrix<A: Alphabet>(rows: &[Vec<u32>]) -> CountMatrix<A> {
    let data =
        DenseMatrix::<u32, A::K>::from_rows(rows.iter().map(|r| r.as_slice()).collect::<Vec<_>>());
    CountMatrix::<A>::new(data).expect("CountMatrix::new is infallible at the pinned commit")
}

pub fn dense_f32<A: Alphabet>(rows: &[Vec<f32>]) -> DenseMatrix<f32, A::K> {
    DenseMatrix::<f32, A::K>::from_rows(rows.iter().map(|r| r.as_slice()).collect::<Vec<_>>())
}

pub fn cells_u32<A: Alphabet>(m: &CountMatrix<A>) -> Vec<Vec<u32>> {
    (0..m.len()).map(|i| m.matrix()[i].to_vec()).collect()
}

pub fn cells_freq<A: Alphabet>(m: &FrequencyMatrix<A>) -> Vec<Vec<f32>> {
    (0..m.len()).map(|i| m.matrix()[i].to_vec()).collect()
}

pub fn cells_weight<A: Alphabet>(m: &WeightMatrix<A>) -> Vec<Vec<f32>> {
    (0..m.len()).map(|i| m.matrix()[i].to_vec()).collect()
}

pub fn cells_score<A: Alphabet>(m: &ScoringMatrix<A>) -> Vec<Vec<f32>> {
    (0..m.len()).map(|i| m.matrix()[i].to_vec()).collect()
}

// ---------------------------------------------------------------------------
// menus (DESIGN §C09)
// ---------------------------------------------------------------------------

/// DNA count rows (order A,C,T,G,N).  Index 0 is the simplest in-domain row.
pub fn dna_count_rows() -> Vec<Vec<u32>> {
    vec![
        vec![4, 0, 0, 0, 0],                     // one symbol, zeros elsewhere
        vec![2, 2, 2, 2, 0],                     // equal counts
        vec![7, 1, 0, 2, 0],                     // skewed, strand-asymmetric, one zero
        vec![1_000_000, 3, 999_999, 250_000, 0], // 10^6 scale
        vec![1, 1, 1, 1, 2],                     // wildcard count 2
        vec![0, 0, 0, 0, 2],                     // only the wildcard was seen
        vec![0, 0, 0, 0, 0], // nothing seen: total 0 unless pseudocounts are positive
        vec![1, 2, 3, 1, 9], // dominated by the wildcard: every symbol is rarer than under a uniform background (all scores negative, distinct)
    ]
}

pub fn dna_pseudos() -> Vec<PseudoSpec> {
    vec![
        PseudoSpec::Scalar(0.0),
        PseudoSpec::Scalar(0.1),
        PseudoSpec::Scalar(1.0),
        PseudoSpec::PerSymbol(vec![0.1, 0.2, 0.3, 0.4, 0.0]),
        PseudoSpec::PerSymbol(vec![0.0, 0.0, 0.0, 0.0, 0.5]), // wildcard only
    ]
}

pub fn dna_backgrounds() -> Vec<BgSpec> {
    vec![
        BgSpec::Uniform,
        BgSpec::New(vec![0.1, 0.2, 0.3, 0.4, 0.0]), // skewed, strand-asymmetric
        BgSpec::New(vec![0.0, 0.5, 0.25, 0.25, 0.0]), // one non-wildcard frequency 0
        BgSpec::New(vec![0.25, 0.25, 0.125, 0.125, 0.25]), // non-zero wildcard frequency
        BgSpec::FromCounts(vec![2, 2, 5, 1, 0]),    // through from_counts
        BgSpec::New(vec![1.0e-8, 0.5, 0.25, 0.25, 0.0]), // a frequency below f32::EPSILON (absorbed in the f32 sum, so the constructor accepts it)
        BgSpec::New(vec![0.0, 1.0, 0.0, 0.0, 0.0]), // one-symbol background (what from_sequence gives for a homopolymer)
    ]
}

pub fn bases() -> Vec<f32> {
    // 1.5, 2.5, 9.5: non-integral bases next to the two special-cased ones (log2 / log10 fast paths)
    vec![2.0, 10.0, std::f32::consts::E, 3.0, 1.5, 2.5, 9.5]
}

/// Protein count rows (21 columns, wildcard X last).
pub fn protein_count_rows() -> Vec<Vec<u32>> {
    let mut single = vec![0u32; 21];
    single[0] = 5;
    let mut equal = vec![1u32; 21];
    equal[20] = 0;
    let mut skew: Vec<u32> = (0..21).map(|j| j as u32).collect();
    skew[20] = 3;
    let mut big: Vec<u32> = (0..21)
        .map(|j| {
            if j % 2 == 0 {
                1_000_000 - 7 * j as u32
            } else {
                3
            }
        })
        .collect();
    big[20] = 0;
    vec![single, equal, skew, big]
}

pub fn protein_pseudos() -> Vec<PseudoSpec> {
    let mut per: Vec<f32> = (0..21).map(|j| 0.05 * ((j % 4) as f32 + 1.0)).collect();
    per[20] = 0.0;
    let mut wild = vec![0.0f32; 21];
    wild[20] = 0.5;
    vec![
        PseudoSpec::Scalar(0.0),
        PseudoSpec::Scalar(0.1),
        PseudoSpec::Scalar(1.0),
        PseudoSpec::PerSymbol(per),
        PseudoSpec::PerSymbol(wild),
    ]
}

pub fn protein_backgrounds() -> Vec<BgSpec> {
    let mut skew: Vec<usize> = (0..21).map(|j| j + 1).collect();
    skew[20] = 0;
    let mut onezero = vec![1usize; 21];
    onezero[3] = 0;
    onezero[20] = 0;
    let allone = vec![1usize; 21];
    // sixteen symbols at 1/16 (exact f32 sum), four non-wildcard zeros, wildcard 0
    let mut dyadic = vec![0.0625f32; 21];
    for j in [1usize, 7, 12, 19, 20] {
        dyadic[j] = 0.0;
    }
    vec![
        BgSpec::Uniform,
        BgSpec::FromCounts(skew),
        BgSpec::FromCounts(onezero),
        BgSpec::FromCounts(allone),
        BgSpec::New(dyadic),
    ]
}

/// All matrices of widths 1..=max_w as lists of row-menu indices (width-major, then mixed radix).
pub fn matrices_upto(menu: usize, max_w: usize) -> Vec<Vec<usize>> {
    let mut out = Vec::new();
    for w in 1..=max_w {
        let n = (menu as u64).pow(w as u32);
        for i in 0..n {
            out.push(
                nth_word(i, w, menu)
                    .into_iter()
                    .map(|x| x as usize)
                    .collect(),
            );
        }
    }
    out
}

pub fn pick_rows(menu: &[Vec<u32>], idx: &[usize]) -> Vec<Vec<u32>> {
    idx.iter().map(|&i| menu[i].clone()).collect()
}

// ---------------------------------------------------------------------------
// JSON helpers
// ---------------------------------------------------------------------------

pub fn f32_to_json(x: f32) -> Value {
    if x.is_finite() {
        json!(x as f64)
    } else if x.is_nan() {
        json!("NaN")
    } else if x > 0.0 {
        json!("inf")
    } else {
        json!("-inf")
    }
}

pub fn f32_from_json(v: &Value) -> f32 {
    match v {
        Value::String(s) => match s.as_str() {
            "-inf" => f32::NEG_INFINITY,
            "inf" => f32::INFINITY,
            _ => f32::NAN,
        },
        _ => v.as_f64().unwrap() as f32,
    }
}

pub fn f32s_to_json(v: &[f32]) -> Value {
    Value::Array(v.iter().map(|&x| f32_to_json(x)).collect())
}

pub fn f32s_from_json(v: &Value) -> Vec<f32> {
    v.as_array().unwrap().iter().map(f32_from_json).collect()
}

pub fn matrix_to_json(m: &[Vec<f32>]) -> Value {
    Value::Array(m.iter().map(|r| f32s_to_json(r)).collect())
}

pub fn matrix_from_json(v: &Value) -> Vec<Vec<f32>> {
    v.as_array().unwrap().iter().map(f32s_from_json).collect()
}

pub fn counts_from_json(v: &Value) -> Vec<Vec<u32>> {
    v.as_array()
        .unwrap()
        .iter()
        .map(|r| {
            r.as_array()
                .unwrap()
                .iter()
                .map(|x| x.as_u64().unwrap() as u32)
                .collect()
        })
        .collect()
}

pub fn ranks_from_json(v: &Value) -> Vec<u8> {
    v.as_array()
        .unwrap()
        .iter()
        .map(|x| x.as_u64().unwrap() as u8)
        .collect()
}

// ---------------------------------------------------------------------------
// dispatcher arms
// ---------------------------------------------------------------------------

pub const FORCED: [Forced; 3] = [Forced::Generic, Forced::Sse2, Forced::Avx2];

pub fn arm_name(a: Forced) -> &'static str {
    match a {
        Forced::Generic => "generic",
        Forced::Sse2 => "sse2",
        Forced::Avx2 => "avx2",
    }
}

/// Run `f` with the dispatcher arm forced, restoring the previous setting (also on unwind).
pub fn with_arm<T>(arm: Forced, f: impl FnOnce() -> T) -> T {
    struct Guard(Option<Forced>);
    impl Drop for Guard {
        fn drop(&mut self) {
            force_backend(self.0);
        }
    }
    let _g = Guard(lightmotif::verif::forced_backend());
    force_backend(Some(arm));
    f()
}

// ---------------------------------------------------------------------------
// report helper
// ---------------------------------------------------------------------------

/// Add `evals` evaluations (of which `nontrivial` non-trivial) to the current
/// space in one go.  (`Report::eval_distinct` costs a map lookup per call,
/// which matters in the 10^8-evaluation loops of C10.)  The space must have
/// been opened with `rep.space(name, ..)`.
pub fn bulk(rep: &mut Report, space: &str, evals: u64, nontrivial: u64) {
    let s = rep.spaces.entry(space.to_string()).or_default();
    s.evaluations += evals;
    s.nontrivial += nontrivial;
}
