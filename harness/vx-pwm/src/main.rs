//! vx-pwm: checkers for the matrix-conversion properties C09 and C10.  Invoked by /verif/bin/check.

mod pm;

mod c09;
mod c10;

fn main() {
    vx_core::cli::main(
        |prop, ctx, rep| {
            match prop {
                "C09" => c09::run(ctx, rep),
                "C10" => c10::run(ctx, rep),
                _ => return false,
            }
            true
        },
        |prop, ctx, rep, case| {
            match prop {
                "C09" => c09::replay(ctx, rep, case),
                "C10" => c10::replay(ctx, rep, case),
                _ => return false,
            }
            true
        },
    );
}
